"""C19: the generated JSON Schema accepts every serialised registry.
Steps: build harness/schema (scale-info with the `schema` feature) against /repo; dump the real schema;
translate it to lean/SIM/Extracted/Schema.lean; build theorems + driver; generate registries, serialise them
with the real serde impl, validate with python jsonschema (reference) and with the Lean validator."""
import os, sys, subprocess, shutil, json, time



def main(ck, pid, cfg, tier, seed, replay):
    SCH_DIR = os.path.join(ck.VERIF, 'harness', 'schema')
    SCH_BIN = os.path.join(ck.BUILD, 'sch', 'debug', 'sch')
    t0 = time.time()
    failures, stats, seen, samples = [], dict(evaluations=0, by_verdict={}, unmodelled=0), set(), []
    build_fail = None
    with ck.Lock('sch'):
        if os.path.exists('/repo/Cargo.lock'):
            shutil.copyfile('/repo/Cargo.lock', os.path.join(SCH_DIR, 'Cargo.lock'))
        r = ck.sh(['cargo', 'build', '--offline', '--quiet'], cwd=SCH_DIR, timeout=3600, env=dict(ck.ENV, CARGO_TARGET_DIR=os.path.join(ck.BUILD, 'sch')))
        if r.returncode != 0:
            build_fail = 'schema harness does not build against /repo with the schema feature: ' + r.stdout[-3000:]
    schema_file = os.path.join(ck.BUILD, 'run', 'schema.json')
    os.makedirs(os.path.dirname(schema_file), exist_ok=True)
    if not build_fail:
        out = subprocess.run([SCH_BIN, 'schema'], stdout=subprocess.PIPE, text=True)
        if out.returncode != 0:
            build_fail = 'sch schema failed'
        else:
            open(schema_file, 'w').write(out.stdout)
            tr = ck.sh([sys.executable, os.path.join(ck.VERIF, 'translators', 'schema_to_lean.py'), schema_file], cwd=ck.VERIF)
            if tr.returncode != 0:
                failures.append(dict(stream='schema', kind='TRANSLATE', case='', detail='schema uses a construct outside the modelled subset: ' + tr.stdout[-1500:]))
    lean = ck.lean_side(pid, cfg)   # runs cfg['translators'] (serde attributes) too
    if replay:
        rp = json.load(open(replay))
        print('replay of a schema case: re-running the stream with the recorded seed; failing case was:', (rp.get('case') or '')[:300])
        seed = rp.get('seed', seed)
        tier = rp.get('tier', tier)
    if not build_fail:
        n = cfg['n'][tier]
        base = os.path.join(ck.BUILD, 'run', f'{pid}.schema.{tier}')
        docs = subprocess.run([SCH_BIN, 'docs', '--seed', str(seed), '--n', str(n)], stdout=subprocess.PIPE, text=True)
        cases = subprocess.run(['python3-vt', os.path.join(ck.VERIF, 'checks', 'c19_cases.py'), schema_file, str(seed), '3'],
                               input=docs.stdout, stdout=subprocess.PIPE, stderr=subprocess.PIPE, text=True)
        if cases.returncode != 0:
            build_fail = 'case generation (python3-vt + jsonschema) failed: ' + cases.stderr[-1500:]
        else:
            open(base + '.cases', 'w').write(cases.stdout)
            ck.drive(base + '.cases', base + '.verdicts', 3600)
            ck.tally(base + '.cases', base + '.verdicts', stats, failures, seen, samples, 'schema')
    # the same schema must come out of a build with scale-info's bit-vec feature on (registries with bit sequences are legal either way)
    if not build_fail:
        with ck.Lock('sch'):
            r2 = ck.sh(['cargo', 'build', '--offline', '--quiet', '--features', 'bitvec'], cwd=SCH_DIR, timeout=3600,
                       env=dict(ck.ENV, CARGO_TARGET_DIR=os.path.join(ck.BUILD, 'sch-bv')))
        SCH_BV = os.path.join(ck.BUILD, 'sch-bv', 'debug', 'sch')
        if r2.returncode != 0:
            failures.append(dict(stream='schema', kind='BUILD', case='', detail='schema harness does not build with bit-vec on: ' + r2.stdout[-1500:]))
        else:
            out2 = subprocess.run([SCH_BV, 'schema'], stdout=subprocess.PIPE, text=True)
            if out2.returncode == 0 and json.loads(out2.stdout) != json.load(open(schema_file)):
                schema_bv = os.path.join(ck.BUILD, 'run', 'schema.bv.json')
                open(schema_bv, 'w').write(out2.stdout)
                failures.append(dict(stream='schema', kind='DIFF', case='', detail='the generated schema depends on the bit-vec feature of scale-info (schema.json vs schema.bv.json under .build/run)'))
                docs2 = subprocess.run([SCH_BV, 'docs', '--seed', str(seed), '--n', str(cfg['n'][tier])], stdout=subprocess.PIPE, text=True)
                cases2 = subprocess.run(['python3-vt', os.path.join(ck.VERIF, 'checks', 'c19_cases.py'), schema_bv, str(seed), '0'],
                                        input=docs2.stdout, stdout=subprocess.PIPE, stderr=subprocess.PIPE, text=True)
                if cases2.returncode == 0:
                    base2 = os.path.join(ck.BUILD, 'run', f'{pid}.schema.{tier}.bv')
                    open(base2 + '.cases', 'w').write(cases2.stdout)
                    ck.drive(base2 + '.cases', base2 + '.verdicts', 3600)
                    ck.tally(base2 + '.cases', base2 + '.verdicts', stats, failures, seen, samples, 'schema')
    ck.finish(pid, cfg, tier, seed, t0, lean, build_fail, failures, stats, seen, samples,
              extra_cov=dict(schema_definitions=len(json.load(open(schema_file)).get('definitions', {})) if os.path.exists(schema_file) else 0,
                             reference_validator='python jsonschema (Draft7Validator) on the real schema'))
