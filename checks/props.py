"""Per-property configuration of ./check (streams, case counts, trusted base)."""

COMMON_TB = [
    "Lean 4.33.0 kernel; axioms of every property theorem audited with #print axioms on every run: subset of {propext, Classical.choice, Quot.sound}; no native_decide, no bv_decide, no sorry/admit, no added axiom",
    "statements in lean/SIM/Props/<id>.lean and spec predicates in lean/SIM/Spec (read them: they are what is proved)",
    "hand-written Lean model lean/SIM/Model/*.lean (a transcription of the Rust source regions named in each file header); tied to /repo's working tree on every run only by the correspondence streams: harness/rt (real code, rebuilt by cargo from /repo) -> case lines -> lean driver (model + spec) -> verdicts",
    "correspondence machinery: harness/rt (Rust), the text protocol, lean/Main.lean + lean/SIM/Driver, ./check (python)",
    "Rust std collections (BTreeMap as a finite map keyed by Eq-consistent Ord, Vec as a list), machine integers as Nat within the ranges generated",
]


def only(*prefixes):
    """failure filter: keep a DIFF/SPECFAIL only when its detail mentions one of the prefixes"""
    def f(kind, detail):
        # a DIFF / PARSE / CRASH is about the stream as a whole: never filtered out
        return kind != 'SPECFAIL' or any(p in detail for p in prefixes)
    return f


CODEC_RULE = ("generated registries, alternately arbitrary ('wild': ids, references, array lengths and variant indices anywhere in u32/u8, "
              "including every compact size-class boundary 63/64/16383/16384/2^30-1/2^30/2^32-1; strings empty, long (63/64/65/200 bytes), multi-byte UTF-8) "
              "and well-formed, sizes 0..12 and 63/64/65 entries, every TypeDef kind; in one registry out of ten one list (variants, fields, tuple members, parameters, docs, path) has a length at a boundary of the format "
              "(63/64/65, 255/256/257, 300), and two fixed registries carry lists of 16383 / 16384 elements; encodings too long to mutate are still decoded as they are and truncated once; each is encoded by the real Encode (enc case: bytes, decode(encode(r))==r, encode twice) ; "
              "each encoding is then mutated (truncation at a random and, for short ones, at every offset; bit flips; byte insertion/deletion/overwrite; "
              "leading length field replaced by boundary/huge values; non-canonical compact patterns; trailing bytes) plus random byte strings, and given to the real Decode under catch_unwind "
              "with a counting allocator (dec case). Non-trivial: registry non-empty (enc) / any dec case; distinct = distinct case lines.")

REGISTRY_RULE = ("random type graphs of 1..48 (thorough 96) identities (uniform or local references; all eight definition kinds; self loops, mutual cycles, "
                 "nodes first met as a type parameter, skipped parameters; in a third of the graphs one node is a real std identity - PhantomData<_>, (), str or u8, reached through several of its "
                 "Rust aliases (PhantomData<u8>/<()>, Box<()>, &(), String, Box<String>, Arc<u8>, &mut u8) - as parameter/field/element/root) loaded into a const-generic "
                 "family Node<N>/Alias<N,K> whose type_info() goes through the real Type/Field/Variant constructors, x random histories of 1..8 (thorough 12) "
                 "register_type / register_types / map_into_portable calls with repeats and aliases, a snapshot of Registry::types() after every call. "
                 "Non-trivial: the final registry has at least one reference; distinct = distinct case lines.")

META_RULE = ("a generated corpus of Rust type expressions over every built-in constructor (fixed part: every alias family Box/Rc/Arc/&/&mut of u8, String, Vec<u8>, Option<u32>, PhantomData<u8>, "
             "each also wrapped once more; Vec/VecDeque/slice; String/str; PhantomData instantiations; the confusable pairs Range/RangeInclusive, BinaryHeap/BTreeSet/slice; tuple arities 0..20; "
             "random part: N random expressions of depth <= 3), closed under sub-expressions and impl-mentioned types, compiled into a program against /repo. "
             "meta: every unordered pair (A, B) of the corpus: ==, cmp both ways, hash, type_id equality, and type_info() equality (for equal pairs and a 1/7 sample of the others). "
             "tinfo: type_info() of every corpus type with references resolved against the corpus. Non-trivial: an equal pair of syntactically different expressions / a definition with references.")

STD_RULE = ("a generated corpus of built-in type expressions (every constructor: integers, bool, String/str, arrays incl. [u8; 2^32-1] and [u8; 2^32+1], tuples of arity 0..20, Vec/VecDeque/slices, Option, Result, "
            "Box/Rc/Arc/references, Cow, BTreeMap, BTreeSet, BinaryHeap, Compact, Range, RangeInclusive, NonZero*, Duration, PhantomData, unit, BitVec<u8|u16|u32|u64, Lsb0|Msb0>; random nesting to depth 3) "
            "compiled against /repo; for each sized type the registry obtained by registering it and, where the codec can encode it, up to 3 values with their real SCALE bytes. "
            "Oracle: SIM.Value.decodeVal run on the REAL registry and the REAL bytes must return exactly the expected value and no remainder; array types must be described with their true length. "
            "Correspondence: model registry (Impls.typeInfo through the Registry model) = real registry; model encoding of the value = real bytes; tinfo: model type_info = real. "
            "Non-trivial: a type with at least one encoded value / a definition with references.")

DERIVE_RULE = ("generated Rust declarations deriving TypeInfo and Encode (harness/gen/gen_derive.py): structs and enums with named / unnamed / unit shapes, 0-2 type parameters (used directly, in Vec/Option/tuple/Box/array, "
               "in PhantomData, skipped via skip_type_params), optional lifetime (&'a str and Cow<'a, str> members, self references S<'a, ..>: shown as 'static in both positions), members of built-in types nested to depth 2, earlier declarations, self references behind Box/Vec/Option, "
               "#[codec(skip)], #[codec(compact)], #[codec(index = n)], explicit discriminants, #[scale_info(rename)], capture_docs in three values and three spellings, 0-5 replace_segment rows (matching and not, the same search segment in several rows), skipped + compact + plain integer members in every relative order inside one member list, "
               "a fixed catalogue of five declarations enumerating the syntactic forms of member type names (nested tuples, tuples as generic arguments, arrays of tuples, unit, markers inside tuples, references, Cow, ranges, maps, lifetimes), "
               "doc attributes with 0/1/2/3/5 leading spaces, empty and unicode lines, items nested 0-3 modules deep incl. raw module identifiers; each declaration instantiated 1-2 times, compiled against /repo "
               "twice (docs feature off / on); per instantiation the real type_info() (references resolved against the program's type table), the real registry and up to 3 values with their real bytes. "
               "Non-trivial: every case (each has at least a path); distinct = distinct case lines.")

PROPS = {
    'C12': dict(
        streams=[
            dict(name='interner', quick=2000, thorough=100000),
            dict(name='builder', quick=600, thorough=30000),
        ],
        rule="random op sequences (interner: <=60/200 ops over alphabets of 2..30 values, out-of-range resolve through a symbol of a second interner; builder: <=25/60 ops over Type<PortableForm> values incl. duplicates after unrelated insertions, self references through next_type_id, wild ids); thorough adds every interner sequence of length <=5 over {intern,get,resolve}x{0,1,2}+elements (exhaustive). A case is non-trivial when at least one operation returned an existing index (a duplicate arrived); distinct = distinct case lines.",
        trusted_base=COMMON_TB,
        assumptions=["Ord on interned values is consistent with Eq (derived impls)", "Symbol ids fit usize/u32 (tables < 2^32 entries)"],
    ),
    'C18': dict(
        translators=['extract_ident_rule.py'],
        streams=[dict(name='path', quick=4000, thorough=200000)],
        rule="exhaustive: every single-segment string of length <=4 (quick) / <=6 (thorough) over the class-representative alphabet {a,Z,_,7,r,#,:,space,e-acute} through Path::from_segments; plus random segment lists, module paths (separators ::, :, :::) and replacement tables (0-3 rows, overlapping rows) through Path::new / new_with_replace with panics caught; accessors ident/namespace/Display observed on every constructed path. Non-trivial: the case reaches identifier validation (not the empty list).",
        trusted_base=COMMON_TB,
        assumptions=["str::split(\"::\"), strip_prefix, is_ascii behave as their documentation says (modelled in SIM.Model.Path)", "translators/extract_ident_rule.py reads is_rust_identifier by one regular expression over its whole body: any other shape yields an empty table and breaks extracted_ident_ok"],
    ),
    'C06': dict(
        translators=['extract_codec_tags.py'],
        streams=[dict(name='codec', quick=1500, thorough=60000, filter=only('C06:'))],
        rule=CODEC_RULE,
        trusted_base=COMMON_TB + ["parity-scale-codec 3.7.5 is the party being compared with (its derive output for the scale-info types and its Compact/Vec/String/Option impls are modelled in SIM.Model.Codec)"],
        assumptions=["the layout in the property statement is what SIM.Model.Codec.encode/decode transcribe"],
    ),
    'C07': dict(
        streams=[dict(name='codec', quick=1500, thorough=60000, filter=only('C07:'))],
        rule=CODEC_RULE + " C07 clauses: library decode(encode(r))==r with nothing left over, encode twice equal, no two distinct generated registries share bytes (hash map over the run).",
        trusted_base=COMMON_TB,
        assumptions=["Bounded (ids/lengths < 2^32, indices < 256, strings valid UTF-8) is exactly what the Rust types can hold"],
    ),
    'C14': dict(
        streams=[dict(name='codec', quick=1500, thorough=60000, filter=only('C14:')),
                 dict(name='json', quick=500, thorough=25000, filter=only('C14:'))],
        rule=CODEC_RULE + " C14 clauses on dec cases: no panic (catch_unwind; an abort kills the harness and is reported as CRASH), peak allocation <= 1024*len + 131072 bytes (counting allocator), an accepted input re-encodes to exactly the consumed bytes (library and layout encoder), resolve(len), resolve(len+7), resolve(u32::MAX) answer None.",
        trusted_base=COMMON_TB + ["never panics / never aborts / memory proportional to input are run-time facts observed on the generated inputs, not proved"],
        assumptions=["allocation bound constants 1024 and 131072 (the codec pre-allocates up to 16 KiB regardless of input)"],
    ),
    'C01': dict(
        streams=[
            dict(name='registry', quick=500, thorough=10000, filter=only('C01:')),
            dict(name='builder', quick=400, thorough=20000, filter=only('C01 ')),
            dict(name='retain', quick=800, thorough=60000, filter=only('C01:'), timeout=1800),
            dict(name='codec', quick=600, thorough=20000, filter=only('C01:')),
        ],
        rule=REGISTRY_RULE + " Also: builder histories (closed and not closed over next_type_id), retain on well-formed registries with random filters, decode(encode(r)) of well-formed registries. C01 oracle = Spec.wf (dense and closed) on every registry the implementation produced: after every operation (Registry::types()), PortableRegistry::from, builder finish, retain result, decoded registry.",
        trusted_base=COMMON_TB,
        assumptions=["the type graph (type_info() of every identity) is an input here; that it is what builders/derive produce is C02/C09/C17's business",
                     "builder closure is relative to the caller: proved and checked under 'every registered reference is below next_type_id at finish'"],
    ),
    'C02': dict(
        streams=[dict(name='registry', quick=800, thorough=15000, filter=only('C02:')),
                 dict(name='stdall', pg=True, mode='stdall', gen='gen_std.py', quick=120, thorough=2500, filter=only('C02:'), also_docs=True),
                 dict(name='twins', pg=True, mode='twins', gen='gen_std.py', quick=20, thorough=20, filter=only('C02:'))],
        rule=REGISTRY_RULE + " C02 oracle: rooted isomorphism (Spec.iso) between the generated type graph and the final registry starting from (identity, returned id) pairs: same path/params/fields/variants/indices/docs/lengths at every node, references corresponding, functional and injective; map_into_portable output = input fields with only references replaced.",
        trusted_base=COMMON_TB,
        assumptions=["TypeId is an injective name of a type (identities modelled as Nat)"],
    ),
    'C05': dict(
        translators=['extract_impl_tables.py'],
        streams=[dict(name='registry', quick=800, thorough=15000, filter=only('C05:')),
                 dict(name='meta', pg=True, mode='meta', quick=60, thorough=700, filter=only('C05:'), also_docs=True),
                 dict(name='stdall', pg=True, mode='stdall', gen='gen_std.py', quick=60, thorough=700, filter=only('C05:')),
                 dict(name='twins', pg=True, mode='twins', gen='gen_std.py', quick=20, thorough=20, filter=only('C05:'))],
        rule=REGISTRY_RULE + " C05 oracle: registry length = number of identities reachable from the registered roots (Spec.reach); per-node type_info() evaluation counters (harness-side) are 1 exactly for reachable identities and never above 1; re-registering present roots (through any alias, with repetition and interleaving) leaves Registry::types() unchanged; alias nodes (same Identity, different fn pointer) get the id of their target.",
        trusted_base=COMMON_TB,
        assumptions=["aliases of built-in std types (Box/Rc/Arc/&/Vec/VecDeque/slice/String/str/PhantomData) are covered by the meta stream of C16; here aliasing is exercised through the harness's Alias<N,K> family and the real PhantomData identity"],
    ),
    'C10': dict(
        streams=[dict(name='retain', quick=1500, thorough=150000, filter=only('C10:'), timeout=3600)],
        rule="well-formed registries of 0..40 (thorough 64) entries, either uniformly random references or structured (local references: chains, small cycles, self loops; entries reachable only through a type parameter; skipped parameters before real ones), all eight definition kinds, x filters (empty, full, singleton, last, random 25%); the real retain under catch_unwind, its input flushed before the call so a hang is attributed. Oracle Spec.retainOk: result well-formed, keys = reachable set, bijection onto new ids, each entry = original with references mapped. Non-trivial: returned map has more than one entry.",
        trusted_base=COMMON_TB,
        assumptions=["the filter is a pure predicate (FnMut state not modelled)"],
    ),
    'C11': dict(
        streams=[dict(name='registry', quick=800, thorough=15000, filter=only('C11:')),
                 dict(name='stdall', pg=True, mode='stdall', gen='gen_std.py', quick=120, thorough=2500, filter=only('C11:'), also_docs=True)],
        rule=REGISTRY_RULE + " C11 oracle: every Registry::types() snapshot contains the previous one unchanged; the same history replayed gives byte-identical encode(); the distinct roots registered one by one in history order, in 3 (thorough 5) random permutations and reversed give registries of the same size that are rooted-isomorphic (Spec.iso from the returned ids) to the original.",
        trusted_base=COMMON_TB,
        assumptions=["TypeId ordering plays no role (BTreeMap<TypeId,_> is only looked up, never iterated)"],
    ),
    'C08': dict(
        translators=['extract_serde_attrs.py'],
        streams=[dict(name='json', quick=800, thorough=40000, filter=only('C08:'))],
        rule="generated registries (arbitrary and well-formed, every definition kind, optional parts present and absent, empty/long/multi-byte strings) through the real serde_json::to_value (ser cases: shape predicate, library round trip through Value and through text, independent reader) and 5 (thorough 10) structural mutations of each document (member removed/added/renamed incl. type_name, bitSequence, unknown keys; null; numbers at 255/256/2^32-1/2^32, negative, fractional; strings; arrays dropped/duplicated; object replaced by positional array in declaration order, truncated or with a surplus element; unit variant as a one-member map) plus 31 hand-written documents (optional members omitted / explicitly empty / null) through the real from_value under catch_unwind, compared with the model reader.",
        trusted_base=COMMON_TB + ["serde / serde_json 1.0 are modelled (SIM.Model.Json), tied by the differential runs only"],
        assumptions=["key order of JSON objects is not part of the property (canonicalised by sorting)",
                     "the payload of 'bitsequence' carries bit_store_type / bit_order_type (Rust field names), accepted by the shape predicate there and nowhere else"],
    ),
    'C17': dict(
        streams=[dict(name='build', quick=3000, thorough=150000, also_docs=True),
                 dict(name='derive', pg=True, mode='derive', gen='gen_derive.py', quick=60, thorough=1200, filter=only('C17:'), also_docs=True),
                 dict(name='tinfo', pg=True, mode='tinfo', gen='gen_std.py', quick=120, thorough=2500, filter=only('C17:'))],
        rule="random builder programs executed on the real typestate builders, MetaForm (types Node<0..7>, PhantomData<u8> / PhantomData<Node<1>> and the non-marker std types () / Box<()> / str / String as member types, compact::<u8|u32|u128>()) and PortableForm (arbitrary u32 ids): type-level setters before and after .path(..) (type_params, docs, docs_always / docs_portable, repeated: last wins), composite with unit / named / unnamed fields (0-4 field builders, name and type set in either order, type_name and docs setters before, between and after), variants (0-3, index at a random position, discriminant, fields set repeatedly), plus TypeDefTuple::new over lists with PhantomData members and From<TypeDef> for Type; each program run by a harness built WITHOUT and WITH scale-info's docs feature. Derive and built-in impls: the generated derive corpus (with its fixed catalogue: markers inside tuples, as generic arguments, a user type merely named PhantomData) and the built-in corpus, clause 'exactly the declared members that are not PhantomData markers are listed'. Non-trivial: result has a reference or docs; distinct = distinct case lines.",
        trusted_base=COMMON_TB,
        assumptions=["typestate-invalid programs cannot be expressed (rustc rejects them: C20)",
                     "rustc compiles the generated programs as modelled"],
    ),
    'C16': dict(
        translators=['extract_impl_tables.py'],
        streams=[dict(name='meta', pg=True, mode='meta', quick=60, thorough=700, filter=only('C16:'), also_docs=True),
                 dict(name='tinfo', pg=True, mode='tinfo', quick=60, thorough=700, filter=only('C16:')),
                 dict(name='stdall', pg=True, mode='stdall', gen='gen_std.py', quick=60, thorough=700, filter=only('C16:')),
                 dict(name='twins', pg=True, mode='twins', gen='gen_std.py', quick=20, thorough=20, filter=only('C16:'))],
        rule=META_RULE,
        trusted_base=COMMON_TB + ["rustc's TypeId is an injective name of a type; the corpus is a generated Rust program compiled against /repo on every run", "translators/extract_impl_tables.py re-extracts, on every run, the `type Identity` / forwarding body of every built-in impl, the primitive table, tuple arities, NonZero rows (src/impls.rs) and the accepted capture_docs values and attribute keywords (derive/src/attr.rs); regular-expression reading of the source, an unreadable source yields empty tables and breaks extracted_*_ok by name"],
        assumptions=["pairs are drawn from a finite generated corpus (closed under sub-expressions); the theorems quantify over all type expressions of the modelled grammar"],
    ),
    'C04': dict(
        translators=['extract_impl_tables.py'],
        streams=[dict(name='std', pg=True, mode='std', gen='gen_std.py', quick=120, thorough=2500, filter=only('C04:'), also_docs=True),
                 dict(name='tinfo', pg=True, mode='tinfo', gen='gen_std.py', quick=120, thorough=2500, filter=only('C04:')),
                 dict(name='stdall', pg=True, mode='stdall', gen='gen_std.py', quick=120, thorough=2500, filter=only('C04:'))],
        rule=STD_RULE,
        trusted_base=COMMON_TB + ["parity-scale-codec 3.7.5's Encode impls for std types are modelled by SIM.Value.encode + Spec.ValOf and tied by comparing bytes on every generated value",
                                  "the python generator harness/gen/texpr.py writes, for each Rust value expression, the Val it denotes (mirror of Spec.ValOf)"],
        assumptions=["values are generated, not enumerated: integer leaves hit 0, 1, 63/64, 2^14, 2^30 boundaries, extremes and random bits; collections have 0-3 elements; BinaryHeap values have at most one element (iteration order is internal)"],
    ),
    'C19': dict(
        custom='c19', translators=['extract_serde_attrs.py'], extra_targets=['SIM.Props.C08serde'],
        streams=[],
        n=dict(quick=400, thorough=40000),
        rule="generated registries (arbitrary and well-formed, every definition kind incl. variants with no variants and composites with no fields, optional parts present and absent) serialised by the real serde impl in a harness built with scale-info's schema feature; each document is validated against the REAL generated schema by python jsonschema (reference) and by the Lean validator on the translated schema; 3 structural mutations per document (member removed/added/renamed, null, wrong-typed, arrays edited) compare the two validators. Non-trivial: non-empty registry / a mutated document the schema rejects.",
        trusted_base=COMMON_TB + ["schemars 0.8 generates the schema (run, not modelled); the translator translators/schema_to_lean.py (rejects any keyword outside the modelled subset)",
                                  "JSON-Schema draft-07 semantics as modelled in SIM.Model.Schema, cross-checked against python jsonschema on every generated and mutated document"],
        assumptions=["format keywords (uint32, uint8) are annotations without validation meaning in draft-07"],
    ),
    'C09': dict(
        translators=['extract_clean_pairs.py'],
        streams=[dict(name='derive', pg=True, mode='derive', gen='gen_derive.py', quick=60, thorough=1200, filter=only('C09:'), also_docs=True)],
        rule=DERIVE_RULE,
        trusted_base=COMMON_TB + ["rustc, the macro expander and proc_macro2's token printer are outside the model (the type name is compared up to whitespace, which is what clean_spaces + extracted_pairs_ok justify)",
                                  "translators/extract_clean_pairs.py re-extracts the .replace chain of clean_type_string from /repo/derive/src/lib.rs on every run (fails on anything but a chain of literal pairs)",
                                  "harness/gen/gen_derive.py writes each declaration both as Rust source and as the Decl the model reads"],
        assumptions=["the supported grammar is the generator's (structs/enums; named/unnamed/unit; 0-2 type parameters, optional lifetime; nested modules incl. raw identifiers; codec skip/compact/index/encoded_as, explicit discriminants; scale_info rename/skip_type_params/capture_docs/replace_segment; doc attributes)"],
    ),
    'C03': dict(
        streams=[dict(name='derive', pg=True, mode='derive', gen='gen_derive.py', quick=60, thorough=1200, filter=only('C03:'), also_docs=True)],
        rule=DERIVE_RULE + " C03 oracle: SIM.Value.decodeVal run on the REAL registry and the REAL bytes of each value must return exactly the expected value (variant name and index, field names, order, leaves) and no remainder; for enums the first byte must be the variant index of the metadata. Values: integer leaves at compact-class boundaries and extremes, both signs, collections of 0-3 elements, recursion through Option<Box<Self>> / Vec<Self> to depth 3.",
        trusted_base=COMMON_TB + ["parity-scale-codec-derive 3.7.5 (field order, skip, compact, index rules) is modelled by Spec.ValOfD / FieldValsD + Value.encode and tied by comparing bytes on every generated value",
                                  "harness/gen/gen_derive.py writes, for each Rust value expression, the Val it denotes"],
        assumptions=["declarations with #[codec(encoded_as)] are outside the theorem (KNOWN-FINDING codec-encoded_as-ignored)",
                     "indices of non-skipped variants are pairwise distinct (the codec derive rejects anything else at compile time)"],
    ),
    'C20': dict(
        translators=['extract_impl_tables.py', 'extract_typestate.py'],
        custom='neg', streams=[], classes='bld,attr', n=dict(quick=480, thorough=6000), filter=only('C20:'),
        rule="generated programs, each its own cargo bin target (compiled on its own): (bld) builder chains in MetaForm and PortableForm - a valid chain (type-level setters around .path, composite with unit/named/unnamed field builders with name/ty-or-compact/type_name/docs in any order, variants with index/discriminant/docs/fields) or ONE mutation of it: path dropped or repeated, terminal dropped/moved/repeated, field kind swapped (named<->unnamed, ->unit), ty dropped or repeated, name added/dropped/repeated, index dropped or repeated; (attr) #[derive(TypeInfo)] on a struct with 0-2 parameters (inline TypeInfo bounds, so only the derive can reject) or a union, with attribute lists drawn from bounds / skip_type_params / capture_docs (valid values in several spellings, invalid ones) / crate / replace_segment / unknown keys, duplicated inside one attribute or across two, and bounds leaving a non-skipped parameter out (also after a skipped one). rustc's verdict per program vs Typestate.accepts / deriveAccepts. Non-trivial: a rejected program.",
        trusted_base=COMMON_TB + ["rustc is the judge; the typestate automaton and the attribute validator are read off src/build.rs and derive/src/attr.rs and tied by these verdicts (the accepted capture_docs strings and the builder signatures also by translation: translators/extract_typestate.py re-reads every inherent impl of src/build.rs - receiver type arguments, method, result type, closure bounds - on every run)", "translators/extract_impl_tables.py re-extracts, on every run, the `type Identity` / forwarding body of every built-in impl, the primitive table, tuple arities, NonZero rows (src/impls.rs) and the accepted capture_docs values and attribute keywords (derive/src/attr.rs); regular-expression reading of the source, an unreadable source yields empty tables and breaks extracted_*_ok by name"],
        assumptions=["TypeBuilder::<_, PathAssigned>::default() compiles and panics at run time (no ill-formed value results): outside the negative grammar, see DESIGN.md §6"],
    ),
    'C13': dict(
        custom='neg', streams=[], classes='gen', n=dict(quick=240, thorough=4000), filter=only('C13:'),
        rule="generated generic declarations (struct or enum, 1-2 type parameters used directly, in Vec/Option/tuple/Box/BTreeMap, in PhantomData, through an associated type T::A, in self-referential positions, with declared where-clause predicates the derived impl has to repeat (T: Mk for a non-blanket marker trait, T: Tr moved out of the parameter list) with and without custom bounds, in helper generic types with and without TypeInfo; optional lifetime, const parameter, default, where-clause; skip_type_params, #[codec(skip)], #[codec(compact)], explicit bounds) each with ONE instantiation drawn from types with type info (u8, u32, String, Wrapper<u8>, Option<bool>, Good), without (NoInfo, Vec<NoInfo>), and trait impls whose associated type has / lacks type info; each program (declaration + `meta_type::<S<..>>()`) compiled on its own. Oracle: if the non-skipped parameters and the encoded members' types have type info (Spec.usableSpec) the program must compile. Correspondence: rustc's verdict = all predicates of the modelled where-clause hold (Bounds.usable).",
        trusted_base=COMMON_TB + ["rustc's trait solver is the judge; Bounds.hasInfo models which helper/built-in types implement TypeInfo"],
        assumptions=["self references are written with the bare identifier except in the flagged qualified-self cases (KNOWN-FINDING)"],
    ),
    'C15': dict(
        custom='c15', streams=[], n=dict(quick=40, thorough=500), filter=only('C15:'),
        rule="a fingerprint program over a generated corpus (built-in type expressions without BitVec + generated derived declarations with docs, attributes, generics; closed under sub-expressions) is built once per feature set of scale-info (quick: 9 sets covering std/no_std, serde, decode, bit-vec, schema, docs; thorough: all 64 subsets of {std, serde, decode, bit-vec, schema, docs}); per corpus type and for all types together the SCALE bytes of the PortableRegistry must be identical across every set without docs and across every set with docs, and the two groups must decode (V14 layout decoder) to registries that are equal once documentation strings are removed. Non-trivial: a registry with more than one entry / a docs pair that actually differs.",
        trusted_base=COMMON_TB + ["cargo feature resolution; the theorem covers the model's feature-dependent points (docs gating in builders, derive and PhantomData impl); that the crate has no OTHER cfg-dependent behaviour is observed one build per configuration"],
        assumptions=["types that exist only with a feature (BitVec) are outside the common corpus"],
    ),
}
