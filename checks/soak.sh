#!/bin/sh
# usage: checks/soak.sh <seed>...   runs every quick check under each seed on the current tree; prints one line per check
cd /verif
# evidence/ describes the default-seed run: keep it
rm -rf .build/evidence_soak; cp -r evidence .build/evidence_soak
for s in "$@"; do
  for p in C01 C02 C03 C04 C05 C06 C07 C08 C09 C10 C11 C12 C13 C14 C15 C16 C17 C18 C19 C20; do
    out=$(VERIF_SEED=$s ./check $p 2>&1); rc=$?
    echo "seed=$s $p rc=$rc $(echo "$out" | grep -E 'VIOLATION' | head -1 | cut -c1-120) $(echo "$out" | grep -c KNOWN-FINDING) known"
  done
done
rm -rf evidence; cp -r .build/evidence_soak evidence
