"""Texts for MANIFEST.json, per property."""
NOT_YET = "not claimed yet: the Lean model/theorems and correspondence stream for this property are still being built (see DESIGN.md §9 build order); no other technique is substituted"
NOT_APPLICABLE = {p: NOT_YET for p in ['C%02d' % i for i in range(1, 21)]}

TEXT = {
    'C12': dict(
        technique='Lean 4 refinement proof (interner map+vec and builder refine a duplicate-free list, induction over the op list) + differential correspondence of the real Interner/PortableRegistryBuilder against model and spec',
        level="Proof: SIM.C12.interner_refines / builder_refines show, for EVERY finite operation sequence and all values, that the outputs of the modelled interner (map+vec exactly as in src/interner.rs) and builder equal those of the duplicate-free-list specification, with next_announces, finish_lists, spec_nodup, spec_append_only spelling out what the spec means. The model is tied to the code on every run by random (and, thorough, exhaustive short) op sequences executed on the real Interner / PortableRegistryBuilder and compared op by op with the model (DIFF) and with the spec (SPECFAIL).",
        design_ref='DESIGN.md §5 C12',
        note="Trusted: Lean kernel + {propext, Classical.choice, Quot.sound}; the hand-written model of src/interner.rs:133-216 and src/portable.rs:262-303; BTreeMap modelled as an association list looked up by key equality; the harness/driver/protocol. The Rust code itself is not verified, only compared with the model on generated histories.",
    ),
    'C18': dict(
        technique='Lean 4 proof that the modelled is_rust_identifier equals the regular expression and from_segments/new_with_replace accept exactly identifier lists (first bad position) + exhaustive small-alphabet correspondence against the real Path constructors',
        level="Proof: SIM.C18.ident_iff (is_rust_identifier = (r#)?[A-Za-z_][A-Za-z0-9_]* for all byte strings), fromSegments_ok_iff, fromSegments_first_bad (least offending index), newWithReplace_some_iff (first matching replacement, applied once, segment list never empty), path_accessors. Tie: every string up to length 4/6 over a class-representative alphabet and random segment lists / module paths / replacement tables go through the real Path::from_segments / new / new_with_replace (panics caught) and are compared with the model and the spec; accessors observed on every constructed path.",
        design_ref='DESIGN.md §5 C18, §6',
        note="Trusted: Lean kernel + standard axioms; the model of src/utils.rs:16-35 and src/ty/path.rs:75-194 (str::split, strip_prefix, is_ascii modelled byte-wise); harness/driver. The tree carries fix commit 67b2ecf (r#r#foo was accepted); the model follows the fixed code.",
    ),
}
