"""Texts for MANIFEST.json, per property."""
NOT_YET = "not claimed yet: the Lean model/theorems and correspondence stream for this property are still being built (see DESIGN.md §9 build order); no other technique is substituted"
NOT_APPLICABLE = {p: NOT_YET for p in ['C%02d' % i for i in range(1, 21)]}

TEXT = {
    'C12': dict(
        technique='Lean 4 refinement proof (interner map+vec and builder refine a duplicate-free list, induction over the op list) + differential correspondence of the real Interner/PortableRegistryBuilder against model and spec',
        level="Proof: SIM.C12.interner_refines / builder_refines show, for EVERY finite operation sequence and all values, that the outputs of the modelled interner (map+vec exactly as in src/interner.rs) and builder equal those of the duplicate-free-list specification, with next_announces, finish_lists, spec_nodup, spec_append_only spelling out what the spec means. The model is tied to the code on every run by random (and, thorough, exhaustive short) op sequences executed on the real Interner / PortableRegistryBuilder and compared op by op with the model (DIFF) and with the spec (SPECFAIL).",
        design_ref='DESIGN.md §5 C12',
        note="Trusted: Lean kernel + {propext, Classical.choice, Quot.sound}; the hand-written model of src/interner.rs:133-216 and src/portable.rs:262-303; BTreeMap modelled as an association list looked up by key equality; the harness/driver/protocol. The Rust code itself is not verified, only compared with the model on generated histories.",
    ),
    'C18': dict(
        technique='Lean 4 proof that the modelled is_rust_identifier equals the regular expression and from_segments/new_with_replace accept exactly identifier lists (first bad position) + exhaustive small-alphabet correspondence against the real Path constructors',
        level="Proof: SIM.C18.ident_iff (is_rust_identifier = (r#)?[A-Za-z_][A-Za-z0-9_]* for all byte strings), fromSegments_ok_iff, fromSegments_first_bad (least offending index), newWithReplace_some_iff (first matching replacement, applied once, segment list never empty), path_accessors. Tie: every string up to length 4/6 over a class-representative alphabet and random segment lists / module paths / replacement tables go through the real Path::from_segments / new / new_with_replace (panics caught) and are compared with the model and the spec; accessors observed on every constructed path.",
        design_ref='DESIGN.md §5 C18, §6',
        note="Trusted: Lean kernel + standard axioms; the model of src/utils.rs:16-35 and src/ty/path.rs:75-194 (str::split, strip_prefix, is_ascii modelled byte-wise); harness/driver. The tree carries fix commit 67b2ecf (r#r#foo was accepted); the model follows the fixed code.",
    ),
    'C06': dict(
        technique='Lean 4 model of the V14 layout (independent encoder + parser) with proved tag tables, compact size classes and unique readability + byte-for-byte differential comparison with the real Encode/Decode in both directions',
        level="Proof + correspondence: SIM.Model.Codec is the 'independent encoder and decoder written from the layout'; SIM.C06 proves the tag bijections (primitive 0..14, definition 0..7 = first byte), array = u32 length then id, bit-sequence = store then order, compact size classes 1/2/4/5 bytes on the four ranges, and unique readability (encode_prefix_free) for all registries. The property itself (agreement with the library on every registry) is decided by running the real Encode on generated registries and the real Decode on mutated encodings and comparing bytes/values with the layout encoder/decoder: any disagreement is a SPECFAIL of C06 with the registry or byte string as replay.",
        design_ref='DESIGN.md §5 C06',
        note="The quantifier 'every registry' is covered by proof only for the model's internal consistency; agreement of the Rust derive output with the layout is sampled (generated registries incl. every compact class boundary and malformed inputs), not proved. parity-scale-codec is modelled.",
    ),
    'C07': dict(
        technique='Lean 4 proof of decode(encode r ++ rest) = (r, rest) and injectivity for all bounded registries (compositional Good-codec lemmas) + differential correspondence of the model codec with the real one',
        level="Proof: SIM.C07.decode_encode (lossless, exact consumption, for all registries whose ids/lengths/indices/strings fit the Rust types, well-formed or not), encode_injective; determinism is functionality of encode. Tie: the model encoder/decoder are compared byte for byte with the real Encode/Decode on every generated case, and the library's own round trip, double encode and collision freedom are observed on the same cases.",
        design_ref='DESIGN.md §5 C07',
        note="Trusted: the model of the derive-generated codec (SIM.Model.Codec) corresponds to the code only through the differential runs; validUtf8 is Lean core's validator (theorems are generic in it).",
    ),
    'C14': dict(
        technique='Lean 4 proof that the modelled decoder accepts only canonical encodings (decode bs = (r, rest) -> bs = encode r ++ rest) and resolve is total + mutation-based differential runs of the real decoder with panic capture and a counting allocator',
        level="Proof for the logical half: SIM.C14.decode_canonical / decode_bounded / decode_consumes_prefix for ALL byte strings, rejection lemmas for non-canonical compacts, option bytes >= 2, tags >= 8 / >= 15, resolve_oob. Observed half (labelled partial): 'never panics, never aborts, memory proportional to input' are run-time facts of the Rust code and allocator; they are observed on truncations at every offset, bit flips, insertions, length-field corruption (incl. huge lengths) and random bytes, with the model decoder predicting accept/reject and value for every input. JSON inputs are covered by the json stream once C08's model is claimed (see DESIGN.md).",
        design_ref='DESIGN.md §5 C14',
        note="partial: the run-time clauses are sampled, not proved; the JSON half currently relies on serde_json's own totality and is exercised by the json stream only where modelled.",
    ),
    'C01': dict(
        technique='Lean 4 invariant proof over all registration histories (DFS post-condition + boundary invariant), builder and retain well-formedness theorems, decode∘encode; differential correspondence of Registry / builder / retain / codec with the model, Spec.wf evaluated on every registry the real code produces',
        level="Proof: SIM.C01.run_wf (for EVERY environment, fuel and finite sequence of register_type/register_types/map_into_portable the resulting PortableRegistry is dense and closed), resolve_dense (indexing is lookup by id), builder_finish_dense/_wf, decode_encode_wf, and SIM.C10.retain_wf. Tie: the real Registry is driven with generated graphs through a const-generic type family and compared snapshot by snapshot with the model; builder, retain and codec streams likewise; the executable WF predicate is evaluated on every registry the implementation returns.",
        design_ref='DESIGN.md §5 C01, §4',
        note="The environment (type_info() of each identity) is an input; fuel is a proof device (C02.register_total). BTreeMap modelled as a key-sorted association list. Model tied to code by differential runs only.",
    ),
    'C02': dict(
        technique='Lean 4 proof that after any history every interned identity resolves to its definition with references mapped to ids (faithful + closed), termination bound for cyclic graphs; rooted graph-isomorphism oracle on the real registry',
        level="Proof: SIM.C02.register_faithful (for every history and every interned identity t: resolve(final, id t) = (env t).map id, and all referenced identities interned), returned_ids (the id returned by each operation is the final id), map_shape (mapping changes nothing but references), register_total (fuel N+1 suffices for any graph closed over N identities: registration of recursive and mutually recursive types terminates), fuel_irrelevant. Tie: generated graphs incl. cycles and types first met as parameters through the real Registry; oracle = rooted isomorphism between type graph and registry from the returned ids.",
        design_ref='DESIGN.md §5 C02',
        note="type_info() of real Rust types enters as the environment; real built-in/derived corpora are compared in the program-based checks (C04/C09). TypeId modelled as Nat.",
    ),
    'C05': dict(
        technique='Lean 4 proofs: idempotent re-registration, interned set = reachable set, no duplicates, each definition evaluated exactly once; evaluation counters and alias families observed on the real Registry',
        level="Proof: SIM.C05.register_idempotent (state equal, existing id), interned_eq_reachable (x interned iff reachable from the registered roots), one_entry_per_identity, eval_once (count <= 1, = 1 iff reachable), distinct_ids. Tie: registry stream with repeated / interleaved re-registration through Alias<N,K> (same Identity, different fn pointer) and PhantomData instantiations; oracle counts entries against the reachable set and checks per-identity evaluation counters.",
        design_ref='DESIGN.md §5 C05',
        note="Alias clause: SIM.C05.identity_alias (identity a = identity b <-> AliasEq a b, the least equivalence generated by the statement's wrapper rules), wrappers_share, phantoms_share, distinct_args_distinct, distinct_defs_distinct, tied by the all-pairs meta stream over a generated corpus of real types. The tree carries fix commit b5d2357 (nested transparent wrappers).",
    ),
    'C10': dict(
        technique='Lean 4 proof of retain (totality, well-formedness, keys = reachable set, bijection, entry = original mapped) for all well-formed registries and filters + differential correspondence with hang/panic attribution',
        level="Proof: SIM.C10.retain_total (fuel |r|+1 suffices, no dangling access, the placeholder is never read), retain_wf, retain_keys (keys of the map = ids reachable from the accepted ids, through parameters, fields, elements, tuple members, compact and bit-sequence parameters alike because all are Ty.refs), retain_bij (k-th inserted key maps to k), retain_entry, retain_lookup, for EVERY well-formed registry and filter. Tie: the real retain on generated well-formed registries and filters vs the literal model (placeholder push, memo before recursion, slot overwrite), oracle Spec.retainOk on the real output.",
        design_ref='DESIGN.md §5 C10',
        note="filter modelled as a pure predicate; BTreeMap<u32,u32> as an association list compared after sorting by key.",
    ),
    'C11': dict(
        technique='Lean 4 proofs of append-only extension (ids keep resolving to the same definition), determinism, and permutation invariance up to an explicit renaming; snapshots, replay and permuted histories on the real Registry',
        level="Proof: SIM.C11.register_extends (for any history split ops1 ++ ops2 the interner of the later state extends the earlier and every earlier id resolves to the same definition), run_append, perm_iso (for permuted root lists the two registries have the same identities, the same size, and are equal up to the explicit injective renaming sigma = id' o identityAt), determinism by functionality. Tie: snapshot after every operation, byte-identical replay, random permutations and reversal of the roots, rooted isomorphism oracle.",
        design_ref='DESIGN.md §5 C11',
        note="as C01.",
    ),
    'C08': dict(
        technique='Lean 4 proof that the modelled serde reader inverts the modelled serde writer for all bounded registries and that the written document satisfies the documented-shape predicate + differential correspondence with serde_json on generated and mutated documents',
        level="Proof: SIM.C08.toRegistry_ofRegistry (for every registry the Rust types can hold, every combination of empty and non-empty parts), ofRegistry_shape (documented keys, lower-case tags, empty parts and absent names omitted), json_scale_same_info, ofRegistry_injective, def_tag, ty_members, field_members, prim_name_roundtrip, key_text_roundtrip. Tie: real to_value output compared with the model writer and checked against the shape predicate and an independent reader; real from_value compared with the model reader on mutated documents.",
        design_ref='DESIGN.md §5 C08',
        note="serde's derive semantics are modelled, not verified; alternative input encodings (positional arrays) are outside the model and reported as UNMODELLED counts in the evidence.",
    ),
    'C17': dict(
        technique='Lean 4 proof that the interpreter of builder-call sequences (transcribing src/build.rs) equals the declarative last-setter-wins / order-preserving / PhantomData-erasing / docs-gated description, for all call sequences + differential runs of the real builders with and without the docs feature',
        level="Proof: SIM.C17.build_lossless (for EVERY sequence of builder calls and argument values, both forms, both settings of the docs feature: the built type = path, parameters, fields, variants, indices, type names and docs supplied, in the order supplied), field/fields/variant_lossless, phantom_never_listed, tuple_new_spec, portable_keeps_all, fields_order, docs_gating, docs_feature_off_erases, ofDef_spec. Tie: random builder programs run on the real builders by two harness builds (docs off / on), results compared with the declarative spec (SPECFAIL) and the interpreter (DIFF).",
        design_ref='DESIGN.md §5 C17',
        note="The 'never listed by the derive or the built-in impls' clause is observed on the program corpora of C09/C04 and proved for the Impls model in C16's file; builder programs are restricted to what the typestate API lets rustc accept.",
    ),
    'C16': dict(
        technique='Lean 4 proof over all type expressions that equal declared identities imply equal definitions (coherence through wrappers of wrappers) and that MetaType equality/order/hash are functions of the identity + all-pairs comparison of real MetaTypes of a generated type corpus',
        level="Proof: SIM.C16.eq_iff_identity, identity_idem, typeInfo_identity, identity_coherent (for ALL type expressions over the built-in constructors, to any nesting depth: same declared identity => same definition), meta_eq_full, ord_hash_consistent, impls_never_list_phantom. Tie: a generated program compares every pair of corpus MetaTypes (==, cmp, hash, type_id, type_info) and prints every type_info(); the driver checks internal consistency (SPECFAIL) and agreement with the model's identity / typeInfo (DIFF).",
        design_ref='DESIGN.md §5 C16',
        note="Derived and hand-written user types declare Identity = Self (the derive emits it); they are covered by the derive stream's table lookups, not by a theorem. rustc/TypeId trusted.",
    ),
    'C04': dict(
        technique='Lean 4 proof that a schema-directed SCALE decoder inverts the SCALE encoder on every well-typed value (mutual induction on the typing derivation, incl. big compact integers and bit sequences) and that every value of a built-in type is well typed against any faithful registry + compiled corpus of std types with real registries and real encodings',
        level="Proof: SIM.C04.decode_encode (for EVERY registry, id and value with HasTy reg id v the registry-only decoder consumes encode v exactly and returns v), builtin_typed / builtin_roundtrip (for every built-in type expression, nested to any depth, and every value shape of it, against any registry that describes the type faithfully - the conclusion of C02), decode_fuel_mono, variant_index_first_byte, tuple_shape, char_shape, nonzero_shape, duration_shape, array_len_mod. Tie: generated Rust program; the decoder is run on the real registry and real bytes (oracle), model registry and model bytes are compared with the real ones (correspondence).",
        design_ref='DESIGN.md §5 C04, §6',
        note="partial: parity-scale-codec's Encode impls are modelled (Spec.ValOf / Value.encode), tied only by the differential runs; the glue 'registry produced by Registry from Impls.typeInfo is Faithful' is C02's theorem plus the TyExpr->Nat encoding done by the driver (compared with the real registry on every case). KNOWN-FINDING: arrays of length >= 2^32 (format limit).",
    ),
    'C09': dict(
        technique='Lean 4 proof that the macro logic (emitted builder calls run through the builder and path models) equals the declarative description of the declaration, and that the re-extracted clean_type_string chain only touches spaces (translator + decide) + generated declarations compiled against /repo with docs off and on',
        level="Proof: SIM.C09.derive_mirrors (for EVERY declaration of the modelled AST and both settings of the docs feature: path = module path + ident with replace_segment applied, parameters by name in order with none when skipped, non-skipped non-PhantomData members in order with (renamed) identifier, declared type or its compact form, type name, variants with identifiers and indices, docs), replaceAll_spaces / clean_spaces (generic in the pair list) + extracted_pairs_ok (decide over the pairs re-extracted from /repo on this run) => type_name_up_to_spaces, docs_captured_iff, strip_one_space, members_order, params_order, variant_index_after_filter, derive_never_lists_phantom. Tie: generated programs compiled against /repo; the real type_info() of every instantiation is compared with the declarative spec (SPECFAIL) and the macro model (DIFF).",
        design_ref='DESIGN.md §5 C09',
        note="partial: the quantifier over 'all type definitions in the supported grammar' is proved over the model's Decl AST; that rustc + the macro implement that logic for real source text is sampled by compilation (generator grammar in the evidence). Type names are compared modulo whitespace (the token printer wraps long types over lines).",
    ),
    'C03': dict(
        technique='Lean 4 proof that every value of a derived type (fields in order, skip omitted, compact compact, index byte) is well typed against any faithful registry, composed with the decoder-inverts-encoder theorem + generated declarations with values compiled against /repo, decoded from the real registry and real bytes',
        level="Proof: SIM.C03.derived_typed / derived_roundtrip (for EVERY declaration of the modelled AST without encoded_as, every instantiation, every value shape of it incl. nested built-ins, recursion and PhantomData members: the registry-only decoder consumes the derived encoding exactly and recovers variant, field names, order and leaves), derived_variant_first_byte, skipped_not_described, and encoded_as_counterexample (the excluded point, machine-checked: description plain u32 vs encoding compact). Tie: generated programs; decodeVal runs on the real registry and real bytes (oracle), Value.encode is compared with the codec derive's bytes (correspondence).",
        design_ref='DESIGN.md §5 C03, §6',
        note="partial: rustc, the macro expander and the codec derive are modelled; 'faithful registry' is C02's conclusion transported through the driver's TyExpr->Nat encoding. KNOWN-FINDING: #[codec(encoded_as)] is ignored by the derive.",
    ),
    'C19': dict(
        technique='translator (the JSON Schema the real code generates, re-extracted on every run into a Lean term) + Lean 4 proof that a draft-07 validator accepts the modelled serialisation of EVERY registry against that schema + reference validation of real serialisations with python jsonschema',
        level="Proof + translation: SIM.C19.schema_accepts (for every registry r, validates(schema, ofRegistry r) = true, one acceptance lemma per schema definition incl. the 8-way and 15-way oneOf), extracted_is_expected (the schema extracted from the real schema_for!(PortableRegistry) on THIS run is, term for term, the one the theorem is about - rfl), schema_accepts_extracted. Tie: a harness built with scale-info's schema feature dumps the real schema and real serialisations of generated registries; python jsonschema validates each (oracle) and the Lean validator is compared with jsonschema on every document and on 3 mutations of it; the model serialiser is compared with serde's output.",
        design_ref='DESIGN.md §5 C19',
        note="schemars and draft-07 semantics are modelled (subset: type, required, properties, items, $ref, allOf, anyOf, oneOf, enum, additionalProperties:false, minimum); the translator refuses anything else. A schema change breaks extracted_is_expected; the search then looks for a generated registry the new schema rejects.",
    ),
    'C13': dict(
        technique='Lean 4 proofs about the modelled where-clause generator (minimality, skip rules, custom bounds, sufficiency for every instantiation satisfying the property\'s condition) + generated generic declarations with instantiations, each compiled on its own, rustc verdict vs model',
        level="Proof: SIM.C13.bounds_sufficient_le / bounds_sufficient_partial (for every modelled declaration without custom bounds and EVERY instantiation in which the non-skipped parameters and the encoded members' types have type info, every predicate of the generated where clause holds), bounds_minimal (every generated predicate is an obligation of the generated body or a 'static bound), skipped_members_unbound, bounds_skip, bounds_custom. Tie: generated declarations + one instantiation each, compiled as separate crates; oracle: Spec.usableSpec => compiles; correspondence: rustc verdict = Bounds.usable.",
        design_ref='DESIGN.md §5 C13, §6',
        note="partial: rustc's trait solver is not modelled (sufficiency is proved against the structural hasInfo model and sampled by compilation); the side condition 'fewer than 1000 parameters' in bounds_sufficient_le is an artefact of the model's encoding of parameters (bounds_sufficient_counterexample shows the encoding limit). Fix commit 52f0a70 (skipped members). KNOWN-FINDING: qualified self reference.",
    ),
    'C20': dict(
        technique='Lean 4 proofs about the typestate automaton read off src/build.rs and the attribute validator of derive/src/attr.rs (every named ill-formed construction is rejected; accepted programs have path/index/type/consistent names) + generated positive and single-mutation negative programs, each compiled on its own',
        level="Proof: SIM.C20.illformed_rejected (every builder program that lacks a path, has a variant without index, a field without type, a named field among unnamed ones or the converse is rejected), accepted_has_path, accepted_variant_has_index, accepted_field_has_type, named_all_named, unnamed_all_unnamed, variant_fields_ok, attrs_reject_union / _unknown / _duplicates / _bad_capture_docs / attrs_missing_bound, capture_docs_values. Tie: every generated program is its own cargo bin; rustc's verdict must equal the model's (an ill-formed program that compiles is a SPECFAIL with the program as replay).",
        design_ref='DESIGN.md §5 C20, §6',
        note="partial: rustc decides; the automaton is a model of the API's signatures tied only by the verdicts. TypeBuilder::<_, PathAssigned>::default() compiles and panics at run time (no ill-formed value results) - outside the negative grammar.",
    ),
    'C15': dict(
        technique='Lean 4 proofs that registration ids are independent of documentation (simulation: registering the docs-erased graph = erasing docs of the registered graph) and that the derive and the built-in impls depend on the docs feature in documentation strings only + one fingerprint build per feature set of scale-info, bytes compared',
        level="Proof: SIM.C15.register_strip / run_strip (for every type graph, fuel and history: the interner, the ids and the output of registration commute with erasing documentation), impls_docs_only, derive_docs_only, derive_docs_off_eq, strip_wf, strip_ids, strip_refs, strip_fill, strip_idem. Tie: a fingerprint program over a generated corpus is built under 9 (thorough: all 64) feature sets; registry bytes must be identical within the no-docs group and within the docs group, and equal across groups after removing documentation strings (V14 layout decoder + stripReg).",
        design_ref='DESIGN.md §5 C15',
        note="partial: the theorems cover the model's feature-dependent points (docs gating); that no OTHER cfg-dependent behaviour exists (std/no_std string representation, serde, decode, bit-vec, schema) is observed one build per configuration, not proved.",
    ),
}
